"""C07: iterative solvers report their status truthfully and converge.

Three uses of spec/SolverCtl.tla:
 (M) model checking: the branch-by-branch transcription of IterativeSolver::_set_initial_defect / _analyse_defect /
     _set_new_defect / _update_defect is checked against the declarative meaning of every Status value over all
     configurations x defect sequences (plus termination under weak fairness);
 (G) generation: the behaviours of the same machine, with the predicted state after every call, are replayed on a
     scripted solver derived from Solver::IterativeSolver<DenseVector<double>> (harness/c07_scripted.cpp);
 (V) validation: real solvers x preconditioners on seeded systems log every protected call (harness/c07_solvers.cpp);
     spec/Trace_SolverCtl.tla re-runs the machine on the logged comparison outcomes and judges the logged
     projections (true residual, rhs unchanged, start vector semantics, repeatability, convergence).
"""
import os, json, time, zlib
import concurrent.futures as cf
import vlib

LEVEL = "model_checking"
Q = 64

# ------------------------------------------------------------------------------------------------------------
# configuration palettes (tolerances are numerators over 64)
# ------------------------------------------------------------------------------------------------------------
FULL = dict(MinIters=[0, 1, 2, 3, 4], MaxIters=[0, 1, 2, 3, 4], TolRels=[0, 16, 64], TolAbss=[32, 4096], TolAbsLows=[0, 128],
            DivRels=[128, 4096], DivAbss=[512, 4096], StagRates=[32, 48, 64], MinStags=[0, 1, 2], Skips=["TRUE", "FALSE"],
            Upds=["FALSE", "TRUE"], Values=[0, 1, 2, 4, 8, 16, 998, 999])


def pal(**kw):
    d = dict(FULL)
    d.update(kw)
    return d


def cfg_text(p, spec="Spec", max_solves=1, max_len=0, record=False, sane=True, invariants=(), properties=()):
    def st(x):
        return "{" + ", ".join(str(v) for v in x) + "}"
    t = "SPECIFICATION %s\nCONSTANTS\n" % spec
    for k in ("MinIters", "MaxIters", "TolRels", "TolAbss", "TolAbsLows", "DivRels", "DivAbss", "StagRates", "MinStags", "Skips",
              "Upds", "Values"):
        t += " %s = %s\n" % (k, st(p[k]))
    t += " MaxSolves = %d MaxLen = %d Record = %s Sane = %s\n" % (max_solves, max_len, "TRUE" if record else "FALSE",
                                                                "TRUE" if sane else "FALSE")
    if invariants:
        t += "INVARIANTS " + " ".join(invariants) + "\n"
    if properties:
        t += "PROPERTIES " + " ".join(properties) + "\n"
    t += "CHECK_DEADLOCK FALSE\n"
    return t


INV_ALL = ("TypeOK", "SuccessMeans", "MaxIterMeans", "DivergedMeans", "AbortedMeans", "StagnatedMeans", "ProgressMeans",
           "IterBound", "Bookkeeping")


class Jobs:
    """TLC runs of one module executed a few at a time"""

    def __init__(self, tag):
        self.tag = tag
        self.jobs = []

    def add(self, name, module, text, **kw):
        fn = "gen_%s_%s_%d.cfg" % (self.tag, os.getpid(), len(self.jobs))
        with open(os.path.join(vlib.SPEC, fn), "w") as f:
            f.write(text)
        self.jobs.append((name, module, fn, kw))

    def run(self, par=5):
        out = []
        try:
            with cf.ThreadPoolExecutor(max_workers=par) as ex:
                futs = [(name, ex.submit(vlib.tlc, module, fn, tag="%s_%d" % (self.tag, k), **kw))
                        for k, (name, module, fn, kw) in enumerate(self.jobs)]
                for name, f in futs:
                    out.append((name, f.result()))
        finally:
            for _, _, fn, _ in self.jobs:
                try:
                    os.remove(os.path.join(vlib.SPEC, fn))
                except OSError:
                    pass
        return out


# ------------------------------------------------------------------------------------------------------------
# (M) model checking
# ------------------------------------------------------------------------------------------------------------
def model_check(chk):
    thorough = chk.tier == "thorough"
    jobs = Jobs("c07m")
    # sane configurations (1 <= max_iter, min_iter <= max_iter): all declarative properties incl. the strict limit;
    # sharded over min_iter.  _update_defect = _set_new_defect without the skip short cut in the model -> Upds = {FALSE}
    if thorough:
        base = pal(Upds=["FALSE"])
        for mi in FULL["MinIters"]:
            jobs.add("sane min_iter=%d" % mi, "SolverCtl", cfg_text(pal(Upds=["FALSE"], MinIters=[mi]), max_solves=2, sane=True,
                                                                    invariants=INV_ALL + ("MaxIterStrict",)), workers=2, want_printed=False, timeout=1500)
        jobs.add("all configurations", "SolverCtl", cfg_text(base, max_solves=1, sane=False, invariants=INV_ALL), workers=3,
                 want_printed=False, timeout=1500)
    else:
        q = pal(Upds=["FALSE"], TolRels=[16, 64], StagRates=[48], MinStags=[0, 2], Values=[0, 1, 2, 8, 16, 998, 999])
        for mi in FULL["MinIters"]:
            jobs.add("sane min_iter=%d" % mi, "SolverCtl", cfg_text(dict(q, MinIters=[mi]), max_solves=1, sane=True,
                                                                    invariants=INV_ALL + ("MaxIterStrict",)), workers=1, want_printed=False)
        jobs.add("degenerate configurations", "SolverCtl",
                 cfg_text(dict(q, MinIters=[0, 2, 4], MaxIters=[0, 1, 3], DivRels=[4096]), max_solves=1, sane=False, invariants=INV_ALL),
                 workers=1, want_printed=False)
        jobs.add("second solve on the same object", "SolverCtl",
                 cfg_text(dict(q, MinIters=[0, 1], MaxIters=[1, 3], TolAbss=[4096], DivAbss=[4096], Skips=["TRUE"]), max_solves=2, sane=True,
                          invariants=INV_ALL + ("MaxIterStrict",)), workers=1, want_printed=False)
    # termination under weak fairness of the iteration step
    lp = pal(Upds=["FALSE"], MinIters=[0, 2, 4] if thorough else [0, 2], MaxIters=[1, 3, 4] if thorough else [1, 3], TolRels=[16, 64],
             TolAbss=[4096], DivAbss=[4096], StagRates=[48], MinStags=[0, 2], Values=[0, 1, 4, 16, 998])
    jobs.add("termination", "SolverCtl", cfg_text(lp, spec="FairSpec", max_solves=1, sane=False, invariants=("TypeOK",),
                                                  properties=("Terminates",)), workers=1, want_printed=False)
    # the strict reading "max_iter => num_iter = max_iter" on max_iter = 0 (one iteration is performed there)
    zp = pal(Upds=["FALSE"], MinIters=[0], MaxIters=[0], TolRels=[16], TolAbss=[4096], TolAbsLows=[0], DivRels=[4096], DivAbss=[4096],
             StagRates=[48], MinStags=[0], Skips=["FALSE"], Values=[0, 1, 4])
    jobs.add("max_iter=0 strict", "SolverCtl", cfg_text(zp, max_solves=1, sane=False, invariants=("MaxIterStrict",)), workers=1,
             want_printed=False)
    for name, r in jobs.run(par=6):
        chk.add_tlc(r, "M " + name)
        if r.violation:
            what = "max_iter=0 performs one iteration" if name == "max_iter=0 strict" else "SolverCtl " + name
            chk.violation({"part": "M", "kind": "model", "what": what}, "%s: %s" % (what, r.violation),
                          {"kind": "tlc", "cmd": r.cmd, "trace": vlib.tlc_trace_states(r.out)[:12]})
        elif r.distinct == 0:
            raise vlib.MachineryError("model checking run '%s' explored nothing" % name)


# ------------------------------------------------------------------------------------------------------------
# (G) generation + replay on the scripted solver
# ------------------------------------------------------------------------------------------------------------
def generate(chk):
    thorough = chk.tier == "thorough"
    jobs = Jobs("c07g")
    small = pal(MinIters=[0, 1, 2], MaxIters=[0, 1, 2, 3], TolRels=[16, 64], DivAbss=[4096], StagRates=[48], MinStags=[0, 2])
    if thorough:
        # exhaustive: one solve, init + 3 steps, 1152 configurations, sharded over (min_iter, max_iter)
        for mi in small["MinIters"]:
            for ma in small["MaxIters"]:
                jobs.add("E1 %d/%d" % (mi, ma), "SolverCtl", cfg_text(dict(small, MinIters=[mi], MaxIters=[ma]), max_solves=1, max_len=4,
                                                                    record=True, sane=False, invariants=("Emit",)), xmx="3g", timeout=1500)
        # exhaustive: two solves on one object, 5 calls
        two = pal(MinIters=[0, 1], MaxIters=[1, 3], TolRels=[16], TolAbss=[4096], TolAbsLows=[0], DivRels=[4096], DivAbss=[4096],
                  StagRates=[32, 64], MinStags=[1, 2], Skips=["TRUE"], Values=[0, 1, 2, 4, 16, 998])
        jobs.add("E2 two solves", "SolverCtl", cfg_text(two, max_solves=2, max_len=6, record=True, sane=False, invariants=("Emit",)), xmx="3g",
                 timeout=1500)
        nsim = 400000
    else:
        for mi in small["MinIters"]:
            jobs.add("E1 min_iter=%d" % mi, "SolverCtl", cfg_text(dict(small, MinIters=[mi]), max_solves=1, max_len=3, record=True,
                                                                  sane=False, invariants=("Emit",)), xmx="3g")
        two = pal(MinIters=[0, 1], MaxIters=[1, 3], TolRels=[16], TolAbss=[4096], TolAbsLows=[0], DivRels=[4096], DivAbss=[4096],
                  StagRates=[64], MinStags=[1, 2], Skips=["TRUE"], Upds=["FALSE"], Values=[0, 1, 4, 16, 998])
        jobs.add("E2 two solves", "SolverCtl", cfg_text(two, max_solves=2, max_len=5, record=True, sane=False, invariants=("Emit",)), xmx="3g")
        nsim = 40000
    # random behaviours over the complete palette, two solves, up to 8 calls (seeded)
    nshard = 4
    for k in range(nshard):
        jobs.add("S%d random" % k, "SolverCtl", cfg_text(FULL, max_solves=2, max_len=8, record=True, sane=False, invariants=("Emit",)),
                 simulate=nsim // nshard, depth=10, tseed=vlib.seed() * 1000 + k, xmx="3g", timeout=1500)
    cases = []
    nex = 0
    for name, r in jobs.run(par=6):
        chk.add_tlc(r, "G " + name)
        if r.violation:
            chk.model_violation(r, "SolverCtl generator " + name)
        if not name.startswith("S"):
            nex += len(r.printed)
        cases.extend(r.printed)
    return cases, nex


def g_sig(c, r):
    g = c["cfg"]
    return {"part": "G", "op": r.get("op", "?"), "exp_status": r.get("exp_status", "?"), "got_status": r.get("got_status", "?"),
            "max_iter0": g["maxIter"] == 0, "outcome": r.get("outcome", "mismatch")}


def run_g(chk):
    binary, = vlib.build(["c07_scripted"])
    cases, nex = generate(chk)
    if not cases:
        raise vlib.MachineryError("generator produced no behaviours")
    # simulation may produce the same behaviour twice
    seen, uniq = set(), []
    for c in cases:
        k = json.dumps(c, sort_keys=True)
        if k not in seen:
            seen.add(k)
            uniq.append(c)
    res = vlib.run_cases(binary, uniq, tmo=20)
    vlib.judge_results(chk, uniq, res, g_sig, harness="c07_scripted",
                       nontrivial=lambda c: len(c["steps"]) >= 2)
    chk.extra["g_behaviours"] = len(uniq)
    chk.extra["g_exhaustive_behaviours"] = nex
    chk.extra["g_calls_compared"] = sum(len(c["steps"]) for c in uniq)
    stat = {}
    for c in uniq:
        for s in c["steps"]:
            stat[s[2]] = stat.get(s[2], 0) + 1
    chk.extra["g_predicted_status_histogram"] = stat
    for c in uniq[len(uniq) // 3: len(uniq) // 3 + 2]:
        chk.sample(c)
    return len(uniq)


# ------------------------------------------------------------------------------------------------------------
# (V) real solvers: recorded traces validated by spec/Trace_SolverCtl.tla
# ------------------------------------------------------------------------------------------------------------
SOLVERS = {
    # name: preconditioners exercised
    "PCG": ["none", "jacobi", "ssor", "ilu", "sor"],
    "PCR": ["none", "jacobi", "ssor", "ilu"],
    "BiCGStab": ["none", "jacobi", "sor", "ssor", "ilu"],
    "BiCGStabR": ["none", "jacobi", "sor", "ilu"],
    "BiCGStabL": ["none", "jacobi", "sor", "ssor", "ilu"],
    "FGMRES": ["none", "jacobi", "sor", "ssor", "ilu"],
    "GMRES": ["none", "jacobi", "sor", "ssor", "ilu"],
    "Richardson": ["none", "jacobi", "sor", "ssor", "ilu"],
    "RichardsonDiv": ["jacobi"],
    "RGCR": ["none", "jacobi", "sor", "ssor", "ilu"],
    "IDRS": ["none", "jacobi", "sor", "ssor", "ilu"],
    "PCGNR": ["none", "jacobi"],
    "PMR": ["none", "jacobi", "sor", "ssor", "ilu"],
    "Chebyshev": ["none"],
    # these three need Global::Vector (asynchronous reductions): run on a single-process gate, preconditioners none / Jacobi
    "PipePCG": ["none", "jacobi"],
    "GroppPCG": ["none", "jacobi"],
    "RBiCGStab": ["none", "jacobi"],
}
SYM_ONLY = ("PCG", "PCR", "Chebyshev", "PipePCG", "GroppPCG")


def v_cases(tier, rng):
    """seeded case list; the in-scope table of the convergence clause lives in Trace_SolverCtl.tla (InScope)"""
    cases = []
    thorough = tier == "thorough"
    sizes = [1, 2, 3, 5, 9, 17, 30, 45, 60] if thorough else [1, 2, 3, 9, 14, 30]
    reps = 6 if thorough else 1

    def fixed(*key):
        # inputs that do not depend on VERIF_SEED (the known findings of the scenario "lucky" name the failing inputs)
        return zlib.crc32(repr(key).encode())

    def system(kind, n=None, delta=None):
        return dict(mkind=kind, n=n or rng.choice([x for x in sizes if x >= 9]), seed=rng.randrange(1, 1 << 30), delta=delta if delta is not None else rng.choice([0.05, 0.3, 1.0]),
                    dens=rng.choice([0.0, 0.15, 0.4]), nfilter=rng.choice([0, 0, 0, 1, 3]))

    def limits():
        return dict(tol_rel=rng.choice([1e-1, 1e-3, 1e-6, 1e-9]), tol_abs=rng.choice([1e30, 1e30, 1e-2, 1e-5]),
                    tol_abs_low=rng.choice([0.0, 0.0, 1e-7, 1e-3]), max_iter=rng.choice([0, 1, 2, 3, 5, 10, 40, 100]),
                    min_iter=rng.choice([0, 0, 0, 1, 2, 5]), min_stag=rng.choice([0, 0, 1, 2, 3]), stag_rate=rng.choice([0.95, 0.5, 0.1]),
                    div_rel=rng.choice([1e16, 1e16, 10.0, 0.9]), div_abs=rng.choice([1e30, 1e30, 50.0]), skip=rng.choice([True, True, False]))

    for sname, precs in SOLVERS.items():
        for prec in precs:
            for rep in range(reps):
                # random limits on in-scope and out-of-scope systems: the status logic must hold everywhere
                for kind in (["spd", "nsym"] if rep % 2 == 0 else ["spdg", "insym"]):
                    c = dict(solver=sname, prec=prec, scen="basic", mode=rng.choice(["apply", "correct"]), cfg=limits(), omega=rng.choice([1.0, 1.0, 0.5, 1.5]))
                    c.update(system(kind))
                    c["rawmat"] = rng.choice([False, True])
                    cases.append(c)
                # convergence with generous limits
                kinds = ["spd", "ispd"] if sname in SYM_ONLY else ["spd", "nsym"]
                if sname == "Richardson" and prec == "none":
                    kinds = ["near1"]
                for kind in kinds:
                    c = dict(solver=sname, prec=prec, scen="converge", mode=rng.choice(["apply", "correct"]), omega=1.0,
                             cfg=dict(tol_rel=rng.choice([1e-4, 1e-8]), max_iter=400, skip=rng.choice([True, False])))
                    c.update(system(kind, delta=rng.choice([0.3, 1.0])))
                    if sname == "Chebyshev":
                        c["nfilter"] = 0
                    if prec == "ilu":
                        c["dens"] = rng.choice([0.15, 0.4])     # ILU(0) of a tridiagonal matrix is the exact factorisation
                    cases.append(c)
                # the same clause where the Krylov space is exhausted before a cycle ends: tiny systems, exact preconditioner,
                # and the smoother configuration min_iter = max_iter on them
                if rep == 0:
                    for kind in kinds:
                        for var in range(3):
                            c = dict(solver=sname, prec=prec, scen="lucky", mode=rng.choice(["apply", "correct"]), omega=1.0,
                                     cfg=dict(tol_rel=1e-8, max_iter=400) if var < 2 else dict(tol_rel=1e-8, min_iter=4, max_iter=4))
                            c.update(system(kind, n=rng.choice([1, 2, 3]), delta=1.0))
                            c["nfilter"] = 0
                            if var == 1 and prec == "ilu":
                                c.update(n=8, dens=0.0)
                            if var == 2:
                                c["scen"] = "smooth"
                            else:
                                # fixed inputs (the same for every solver and seed): rounding decides which of them end in a breakdown
                                h = fixed(kind, var, prec)
                                c.update(seed=1 + h % 100000, mode=["apply", "correct"][(h >> 8) % 2], dens=[0.0, 0.15, 0.4][(h >> 12) % 3])
                                if not (var == 1 and prec == "ilu"):
                                    c["n"] = 1 + (h >> 4) % 3
                                if sname == "Chebyshev" and kind == "spd" and var == 0:
                                    c["n"] = 2      # symmetric 2x2 with equal diagonal: the constant vector is an eigenvector
                            cases.append(c)
                    # numeric re-initialisation after the matrix values changed in place (same pattern): init_symbolic; init_numeric;
                    # solve; update; done_numeric; init_numeric; solve (= reference of the new matrix, bitwise = a fresh solver
                    # object); done; init; solve; values back; done; init; solve (bitwise = the first solve)
                    for kind in kinds:
                        if kind in ("near1", "ispd"):
                            continue
                        c = dict(solver=sname, prec=prec, scen="update", mode=rng.choice(["apply", "correct"]), omega=1.0,
                                 rawmat=rng.choice([False, True]),
                                 cfg=dict(tol_rel=rng.choice([1e-4, 1e-8]), max_iter=400, skip=rng.choice([True, False])))
                        c.update(system(kind, delta=rng.choice([0.3, 1.0])))
                        if sname == "Chebyshev":
                            c["nfilter"] = 0
                        if prec == "ilu":
                            c["dens"] = rng.choice([0.15, 0.4])
                        cases.append(c)
                    # exact breakdown: 1x1 system, scaled identity, right hand side = eigenvector, all data exact in floating point:
                    # the solvers of the unchanged tree detect the exact zero pseudo defect / residual
                    for k, (kind, nn) in enumerate((("one", 1), ("sid", 4), ("diagev", 6))):
                        c = dict(solver=sname, prec=prec, scen="breakdown", mode=["apply", "correct"][k % 2], omega=1.0,
                                 cfg=dict(tol_rel=1e-8, max_iter=100))
                        c.update(system(kind, n=nn, delta=1.0))
                        c.update(nfilter=0, dens=0.0)
                        cases.append(c)
                    # constraints imposed by the filter alone: raw operator (filter_mat NOT applied) + unit filter on a few dofs,
                    # entered through correct() with a start vector that satisfies the constraints (and apply() as the other call)
                    for kind in kinds:
                        if kind == "near1":
                            continue
                        c = dict(solver=sname, prec=prec, scen="converge", mode="correct", omega=1.0, rawmat=True,
                                 cfg=dict(tol_rel=rng.choice([1e-4, 1e-8]), max_iter=400, skip=rng.choice([True, False])))
                        c.update(system(kind, delta=rng.choice([0.3, 1.0])))
                        c["nfilter"] = rng.choice([2, 3])
                        if prec == "ilu":
                            c["dens"] = rng.choice([0.15, 0.4])
                        if sname != "Chebyshev":
                            cases.append(c)
            # exact start vector / zero right hand side on an integer system
            for kind in (["ispd"] if sname in SYM_ONLY else ["ispd", "insym"]):
                c = dict(solver=sname, prec=prec, scen="exact", mode="correct", omega=1.0, cfg=dict(tol_rel=1e-6, max_iter=100))
                c.update(system(kind, n=rng.choice([1, 2, 4, 7, 12])))
                c["nfilter"] = rng.choice([0, 0, 1])
                c["rawmat"] = rng.choice([False, True])
                cases.append(c)
            # preconditioner failure at the k-th application must be reported as aborted
            if prec != "none":
                c = dict(solver=sname, prec=prec, scen="precfail", mode=rng.choice(["apply", "correct"]), omega=1.0,
                         cfg=dict(tol_rel=1e-12, max_iter=50), fail_at=rng.choice([1, 2, 3, 5]))
                c.update(system("spd", n=rng.choice([5, 12, 30])))
                cases.append(c)
    return cases


def validate(chk, traces):
    """run spec/Trace_SolverCtl.tla on the recorded solves; returns {trace index: verdict}"""
    tdir = os.path.join(vlib.BUILD, "gen", "C07")
    os.makedirs(tdir, exist_ok=True)
    nshard = 4 if len(traces) > 2000 else 1
    verdicts = {}
    jobs = []
    for s in range(nshard):
        idx = list(range(s, len(traces), nshard))
        path = os.path.join(tdir, "traces_%d_%d.ndjson" % (os.getpid(), s))
        with open(path, "w") as f:
            for k in idx:
                f.write(json.dumps(traces[k], separators=(",", ":")) + "\n")
        jobs.append((idx, path))
    with cf.ThreadPoolExecutor(max_workers=nshard) as ex:
        futs = [(idx, path, ex.submit(vlib.tlc, "Trace_SolverCtl", "Trace_SolverCtl.cfg", env={"TRACE": path}, tag="c07v_%d" % s, xmx="4g",
                                      timeout=1500)) for s, (idx, path) in enumerate(jobs)]
        for idx, path, f in futs:
            r = f.result()
            if chk is not None:
                chk.add_tlc(r, "V trace validation")
                if r.violation:
                    chk.model_violation(r, "Trace_SolverCtl")
            for v in r.printed:
                verdicts[idx[v["trace"] - 1]] = v
            os.remove(path)
    if len(verdicts) != len(traces):
        raise vlib.MachineryError("trace validation returned %d verdicts for %d traces" % (len(verdicts), len(traces)))
    return verdicts


def run_v(chk):
    import random
    rng = random.Random(vlib.seed() * 7919 + 17)
    binary, = vlib.build(["c07_solvers"])
    cases = v_cases(chk.tier, rng)
    res = vlib.run_cases(binary, cases, tmo=60)
    traces, owner, diags = [], [], []
    for ci, (c, r) in enumerate(zip(cases, res)):
        if r.get("skip"):
            continue
        if r.get("ok") is not True or "traces" not in r:
            # abnormal end of the harness (XASSERT, crash, hang, exception): never an allowed outcome here
            chk.violation({"part": "V", "solver": c["solver"], "prec": c["prec"], "scen": c["scen"], "clause": "outcome_" + str(r.get("outcome", "error")),
                           "tag": "-", "init_stop": False},
                          "solver harness: %s %s" % (r.get("outcome"), (r.get("why") or r.get("stderr") or "")[-300:]),
                          {"kind": "case", "harness": "c07_solvers", "case": c, "result": r})
            continue
        for T, d in zip(r["traces"], r["diag"]):
            traces.append(T)
            owner.append(ci)
            diags.append(d)
    if not traces:
        raise vlib.MachineryError("no solver traces recorded")
    verdicts = validate(chk, traces)
    nev, ninscope, nsucc, margin = 0, 0, 0, None
    stat, clause_hist = {}, {}
    for k, T in enumerate(traces):
        v = verdicts[k]
        if v["events"] != len(T["ev"]):
            raise vlib.MachineryError("trace %d: %d of %d events consumed" % (k, v["events"], len(T["ev"])))
        nev += len(T["ev"])
        ninscope += 1 if v["inscope"] else 0
        stat[T["ret"]] = stat.get(T["ret"], 0) + 1
        d = diags[k]
        chk.count(json.dumps([T["solver"], T["prec"], T["scen"], T["tag"], T["mkind"], T["n"], T["ret"], T["retNi"]]), nontrivial=len(T["ev"]) >= 2)
        if T["ret"] == "success" and isinstance(d.get("res"), (int, float)) and d["res"] > 0 and T["retNi"] > 0 \
                and T["scen"] in ("basic", "converge", "exact"):
            nsucc += 1
            # drift allowance / (true residual - reported defect): how much of the allowance is used at most
            gap = max(d["res"] - d["def_final"], 0.0) if isinstance(d.get("def_final"), (int, float)) else 0.0
            m = d["drift"] / gap if gap > 0 else 1e30
            if margin is None or m < margin[0]:
                margin = (m, T["solver"], T["prec"], T["n"], T["retNi"])
        init_stop = bool(T["ev"]) and T["ev"][0]["st"] != "progress"

        def nan1(t, dd):
            return t["ret"] == "aborted" and t["retNi"] == 1 and bool(dd.get("defs")) and dd["defs"][-1] == "nan"
        nan_at_1 = nan1(T, d)
        prev_nan_at_1 = k > 0 and owner[k - 1] == owner[k] and nan1(traces[k - 1], diags[k - 1])
        for clause in v["fails"]:
            clause_hist[clause] = clause_hist.get(clause, 0) + 1
            sig = {"part": "V", "solver": T["solver"], "prec": T["prec"], "scen": T["scen"], "tag": T["tag"], "clause": clause,
                   "init_stop": init_stop, "after_reinit": T["tag"] in ("reinit", "other"), "nan_at_1": nan_at_1,
                   "prev_nan_at_1": prev_nan_at_1, "raw": bool(T.get("raw")),
                   "nan_abort": T["ret"] == "aborted" and not T["precFail"] and bool(d.get("defs")) and d["defs"][-1] == "nan",
                   "input": "%s/n%d/s%d" % (T["mkind"], T["n"], cases[owner[k]]["seed"]) if T["scen"] == "lucky" else "-"}
            desc = "%s/%s %s/%s n=%d %s: clause %s violated (returned %s after %d iterations; statuses %s; defects %s)" % (
                T["solver"], T["prec"], T["scen"], T["tag"], T["n"], T["mode"], clause, T["ret"], T["retNi"],
                [e["st"] for e in T["ev"]][-4:], [("%.3g" % x if isinstance(x, (int, float)) else x) for x in d.get("defs", [])][-4:])
            chk.violation(sig, desc, {"kind": "case", "harness": "c07_solvers", "case": cases[owner[k]], "trace": T, "diag": d})
            if os.environ.get("C07_DEBUG"):
                with open(os.environ["C07_DEBUG"], "a") as f:
                    f.write(json.dumps({"sig": sig, "desc": desc, "case": cases[owner[k]], "diag": d}) + "\n")
    chk.extra["v_solves"] = len(traces)
    chk.extra["v_events"] = nev
    chk.extra["v_cases"] = len(cases)
    chk.extra["v_returned_status_histogram"] = stat
    chk.extra["v_convergence_clause_judged"] = ninscope
    chk.extra["v_true_residual_judged"] = nsucc
    chk.extra["v_true_residual_min_margin"] = margin
    chk.extra["v_clause_violations"] = clause_hist
    chk.sample({"solve": {x: traces[len(traces) // 2][x] for x in ("solver", "prec", "scen", "tag", "mkind", "n", "ret", "retNi")},
                "events": traces[len(traces) // 2]["ev"][:3]})
    return len(traces)


# ------------------------------------------------------------------------------------------------------------
def run(chk):
    model_check(chk)
    ng = run_g(chk)
    nv = run_v(chk)
    chk.traces = ng + nv
    chk.exhaustive = False
    chk.rule = ("M: every reachable state of the status machine for every configuration of the palette (min/max iter 0..4, dyadic "
                "tolerances, stagnation on/off, skip-defect-calculation on/off) x defect norms {0,1,2,4,8,16,inf,nan}; "
                "G: every maximal behaviour of the small scope (exhaustive) plus seeded random behaviours of the full palette with two "
                "solves on one object, each call compared with the predicted (status, num_iter, def_init, def_cur, def_prev, "
                "num_stag_iter, is_converged, is_diverged); V: seeded cases = solver x preconditioner x system kind (SPD / nonsymmetric "
                "diagonally dominant / integer / near-identity, n <= 60, optional unit filter) x scenario (random limits, convergence, "
                "Krylov space exhaustion on fixed inputs, exact breakdown (1x1 / scaled identity / eigenvector rhs with exact data), raw "
                "operator + unit filter (constraints imposed by filter_def/filter_cor alone, through correct() and apply()), smoother "
                "configuration, exact start / zero rhs, injected preconditioner failure, matrix values updated in place followed by "
                "done_numeric/init_numeric, a fresh solver object, done/init and the values restored), each case = "
                "3-4 solves on one object (again, done/init, other entry point); non-trivial = at least one iteration step; distinct = "
                "distinct behaviour / distinct (solver, preconditioner, scenario, system, outcome)")
    chk.assumptions = ["contradictory limits (min_iter > max_iter) have no declarative meaning; the code lets min_iter win "
                       "(model-checked as IterLimit = max(max_iter, min_iter, 1))",
                       "plot mode none (plotting forces the defect calculation, it has no other influence on the machine)",
                       "true residual clause: ||b-Ax|| (long double) <= certified threshold + drift, drift = C (n+2) eps (||A||_F max_j||x_j|| + ||b||) "
                       "with C = 16 for solvers that recompute the defect, 64 (iterations+2) for recurrence solvers, x1000 for the pipelined "
                       "variants; the smallest ratio drift / (true residual - reported defect) is recorded as v_true_residual_min_margin",
                       "convergence clause: BiCG-type methods and IDR(s) have no convergence theorem; they are judged on strictly diagonally "
                       "dominant systems only (table InScope in spec/Trace_SolverCtl.tla)",
                       "PipePCG/GroppPCG/RBiCGStab run on Global::Vector with a single-process gate and preconditioners none/Jacobi only; "
                       "PCGNR with none/Jacobi only; BiCGStabL in the left variant with l = 2, (F)GMRES with krylov_dim 4, IDR(3)"]


def replay(obj):
    bad = 0
    gcases = [v["replay"]["case"] for v in obj["violations"] if v["replay"] and v["replay"].get("harness") == "c07_scripted"]
    if gcases:
        binary, = vlib.build(["c07_scripted"])
        for c, r in zip(gcases, vlib.run_cases(binary, gcases, tmo=20, shards=1)):
            print(json.dumps({"cfg": c["cfg"], "result": r})[:800])
            bad += 0 if r.get("ok") is True else 1
    vcases = [v["replay"]["case"] for v in obj["violations"] if v["replay"] and v["replay"].get("harness") == "c07_solvers"]
    if vcases:
        binary, = vlib.build(["c07_solvers"])
        traces = []
        for c, r in zip(vcases, vlib.run_cases(binary, vcases, tmo=60, shards=1)):
            if "traces" not in r:
                print(json.dumps({"case": c, "result": r})[:800])
                bad += 1
            else:
                traces.extend(r["traces"])
        if traces:
            ver = validate(None, traces)
            for k, T in enumerate(traces):
                print(json.dumps({"solve": [T["solver"], T["prec"], T["scen"], T["tag"], T["ret"], T["retNi"]], "fails": ver[k]["fails"]}))
                bad += 1 if ver[k]["fails"] else 0
    for v in obj["violations"]:
        if v["replay"] and v["replay"].get("kind") == "tlc":
            print("model counterexample: re-run with", v["replay"]["cmd"])
            bad += 1
    return 1 if bad else 0
