"""C14: every named cubature rule is exact up to its nominal degree (spec/Cubature.tla, harness/c14_cubature.cpp).

TLC enumerates every sentence of the rule-name language (valid sentences in every case style, and the invalid
neighbours of the language) for the six shapes and prints the verdict of the specification: Unknown or
Rule(points, nominal degree).  The replayer gives each name to Cubature::DynamicFactory and compares: refused <=> Unknown;
number of points; weights sum to the reference volume; measured degree (long double, closed-form monomial integrals,
rounding bound 64 N eps sum|w||x^a|) >= nominal degree.  Two build configurations of the factories are covered: without
and with the "tensor:" / "scalar:" prefixes (FEAT_CUBATURE_TENSOR_PREFIX / FEAT_CUBATURE_SCALAR_PREFIX).
"""
import os, json
import concurrent.futures as cf
import vlib

LEVEL = "model_checking"
INV = "Partition DegreeLaws Emit"


def configs(tier):
    """(constants, name, harness, extra probe degrees)"""
    if tier == "thorough":
        return [('Prefixes = FALSE Styles = {"lower", "upper", "mixed"} RefineMaxPts = 30000 Invalid = TRUE', "no prefixes, 3 case styles, refined rules up to 30000 points", "c14_cubature", 3),
                ('Prefixes = TRUE Styles = {"lower", "mixed"} RefineMaxPts = 2000 Invalid = TRUE', "tensor:/scalar: prefixes", "c14_cubature_prefix", 2)]
    return [('Prefixes = FALSE Styles = {"lower", "upper"} RefineMaxPts = 3000 Invalid = TRUE', "no prefixes, 2 case styles", "c14_cubature", 1),
            ('Prefixes = TRUE Styles = {"lower"} RefineMaxPts = 300 Invalid = TRUE', "tensor:/scalar: prefixes", "c14_cubature_prefix", 1)]


def sig(c, r):
    s = {"verdict": r.get("verdict") or ("outcome_" + str(r.get("outcome", "mismatch"))), "shape": "%s%d" % (c["kind"], c["dim"]),
         "prefixes": c["prefixes"]}
    if c["accept"]:
        s["base"] = c["base"]
    else:
        s["why"] = c["why"]
        s["core"] = c["core"]
    return s


def run(chk):
    cfgs = configs(chk.tier)
    bins = vlib.build(sorted(set(h for _, _, h, _ in cfgs)), jobs=4)
    binof = dict(zip(sorted(set(h for _, _, h, _ in cfgs)), bins))

    def gen(k, consts):
        cfg = "gen_C14_%d_%d.cfg" % (os.getpid(), k)
        with open(os.path.join(vlib.SPEC, cfg), "w") as f:
            f.write("SPECIFICATION Spec\nCONSTANTS %s\nINVARIANTS %s\nCHECK_DEADLOCK FALSE\n" % (consts, INV))
        try:
            return vlib.tlc("Cubature", cfg, workers=2, timeout=2400, xmx="4g", tag="C14_%d" % k)
        finally:
            try:
                os.remove(os.path.join(vlib.SPEC, cfg))
            except OSError:
                pass

    with cf.ThreadPoolExecutor(max_workers=len(cfgs)) as ex:
        futs = [ex.submit(gen, k, c[0]) for k, c in enumerate(cfgs)]
        runs = [f.result() for f in futs]
    total = 0
    margins = []
    byverdict = {}
    for (consts, name, harness, extra), r in zip(cfgs, runs):
        chk.add_tlc(r, "Cubature: " + name)
        if r.violation:
            chk.model_violation(r, "Cubature.tla law (%s)" % name)
        cases = r.printed
        if not cases:
            raise vlib.MachineryError("generator produced no cases (%s)" % name)
        for c in cases:
            c["extra"] = extra
        # the large rules first inside every shard would not help; sort by name for reproducible sharding
        cases.sort(key=lambda c: (c["kind"], c["dim"], c["name"]))
        # interleave so that every shard gets a share of the expensive 3D rules
        nsh = vlib.NCPU
        cases = [c for k in range(nsh) for c in cases[k::nsh]]
        res = vlib.run_cases(binof[harness], cases, tmo=120)
        vlib.judge_results(chk, cases, res, sig, harness=harness,
                           keyf=lambda c: json.dumps([c["prefixes"], c["kind"], c["dim"], c["name"]]),
                           nontrivial=lambda c: c["accept"])
        total += len(cases)
        for c, rr in zip(cases, res):
            if rr.get("ok") is True and c["accept"]:
                margins.append(rr.get("margin", 0.0))
            v = "ok" if rr.get("ok") is True else (rr.get("verdict") or rr.get("outcome") or "?")
            byverdict[v] = byverdict.get(v, 0) + 1
        for c in cases[:: max(1, len(cases) // 3)][:3]:
            chk.sample({k: c[k] for k in ("name", "kind", "dim", "accept", "pts", "deg", "why")})
    chk.traces = total
    chk.exhaustive = True
    chk.extra["results_by_verdict"] = byverdict
    chk.extra["projection_margin_max_err_over_bound"] = max(margins) if margins else None
    chk.extra["projection_bound"] = "64 * N * DBL_EPSILON * sum_i |w_i| |x_i^a| per monomial, long double evaluation"
    hist = {}
    for sg, _, _ in chk.violations:
        k = json.dumps(sg, sort_keys=True)
        hist[k] = hist.get(k, 0) + 1
    if hist:
        chk.extra["violation_signatures"] = sorted(([n, json.loads(k)] for k, n in hist.items()), key=lambda x: -x[0])[:40]
    chk.rule = ("every sentence of spec/Cubature.tla: each driver x each parameter of its range x refine prefixes (none, refine:, "
                "refine*0/1/2:) x case styles, every alias, auto-degree:0..max+2, plus the invalid neighbours (parameter min-1/max+1/0/99, "
                "missing, empty, non-numeric, trailing garbage, fraction, negative, unexpected; misspelt keywords; rules of other shapes; "
                "broken/doubled refine; prefix misuse) x 6 shapes x 2 build configurations; non-trivial = sentences of the language "
                "(a rule is built and measured); distinct = distinct (configuration, shape, name)")
    chk.assumptions = ["exactness of a coefficient table is decided through the numeric projection 'measured degree' (long double, stated bound), not exactly",
                       "rules are instantiated for double weights/coordinates only"]


def replay(obj):
    out = 0
    for v in obj["violations"]:
        rp = v.get("replay") or {}
        if rp.get("kind") != "case":
            continue
        binary, = vlib.build([rp["harness"]], jobs=4)
        res = vlib.run_cases(binary, [rp["case"]], tmo=120, shards=1)
        print(json.dumps({"case": sig(rp["case"], res[0]), "result": res[0]})[:1000])
        if res[0].get("ok") is not True:
            out = 1
    return out
