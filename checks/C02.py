"""C02: conversion, cloning, transposition, permutation and layout/graph rebuilding preserve the matrix.

G  spec/Convert.tla: a world of container slots over a chunk table; every public call (convert for every format pair that
   has one, clone x 5 modes, data/index type conversion, transpose, permute, layout constructor, graph constructor,
   copy, format, poke through the raw value pointer, and the remaining ways a matrix is built: SparseMatrixCSCR(csr, mirror),
   converting and allocating constructors, SparseMatrixFactory, convert_reverse) is one action whose post-state (raw arrays,
   dimensions, Abs, which arrays are shared) is defined from Storage.tla / IntLinAlg.tla.  TLC enumerates seed matrices x calls and histories of
   calls (BFS) and random longer histories (-simulate, thorough tier); harness/c02_convert.cpp replays each history on the
   real containers and compares every slot after every step.
M  the laws AbsPreserved / RepValid / alias-exactness are invariants of the same runs (LawsHold, RepValid, ChunksExist).
"""
import os, json
import concurrent.futures as cf
import vlib

LEVEL = "model_checking"
HARNESS = "c02_convert"
INV = "RepValid LawsHold ChunksExist Emit"
OLDOPS = ["conv", "clone", "transp", "transpinto", "tinplace", "permute", "layout", "graph", "copy", "format", "poke"]
# building / rebuilding routes: mirror = SparseMatrixCSCR(csr, VectorMirror), convctor = converting constructors MT(const MT_&),
# (and dst = src.clone(mode)), alloc = allocating constructors, factory = SparseMatrixFactory::make_csr, convrev = SparseMatrixCSR::convert_reverse,
# permctor = the Adjacency::Permutation objects given to permute are built through all their construction routes
BUILDOPS = ["mirror", "convctor", "alloc", "factory", "convrev", "permctor"]
ALLOPS = OLDOPS + BUILDOPS
ALLTY = ["f64u64", "f64u32", "f32u32"]
MAXPAR = 6


def cfgd(name, seeds, ops=None, depth=1, ns=2, types=None, perm="few", pal=1, seedtypes=None, simulate=None, workers=1):
    ops = list(ops or ALLOPS)
    if "permute" in ops and "permctor" not in ops:
        ops.append("permctor")          # costs no extra histories: the construction route is a function of the call
    return dict(name=name, seeds=seeds, ops=ops, depth=depth, ns=ns, types=ALLTY if types is None else types, perm=perm, pal=pal,
                seedtypes=seedtypes or ["f64u64"], simulate=simulate, workers=workers)


PAL = ["csr_pal", "cscr_pal", "banded_pal", "dense_pal", "bcsr_pal"]


def configs(tier):
    PATOPS0 = ["conv", "transp", "transpinto", "tinplace", "permute", "graph", "layout"]      # calls whose result depends on the sparsity pattern
    PATOPS = PATOPS0 + ["mirror", "convctor", "factory", "permctor"]                                       # ... and the building routes that do
    c = [
        # every call once on every seed matrix (exhaustive over inputs)
        cfgd("single: csr shapes <= 3x2/2x3 + entry-free 3x5, all patterns, all permutation pairs", ["csr_small"], perm="all"),
        cfgd("single: csr 3x3 all 512 patterns, pattern dependent calls incl. every row-selecting mirror", ["csr_33"], ops=PATOPS0 + ["mirror"]),
        cfgd("single: cscr all patterns x row lists", ["cscr_small"]),
        cfgd("single: banded all offset sets", ["banded_small"]),
        cfgd("single: dense", ["dense_small"]),
        cfgd("single: bcsr 2x2 / 2x3 / 3x2 blocks, all block patterns, all permutation pairs", ["bcsr22", "bcsr23", "bcsr32"], perm="all"),
        cfgd("single: palette seeds built as float/uint32 and double/uint32", PAL, seedtypes=["f32u32", "f64u32"]),
        cfgd("single: stored zeros and repeated values", ["csr_small", "banded_pal", "cscr_pal", "bcsr_pal"], pal=2, types=["f32u32"], ops=PATOPS + ["clone"]),
        # pairs: transpose twice, permutation then every permutation (incl. the inverse)
        cfgd("double transpose", ["csr_small", "dense_small", "bcsr22", "bcsr23", "bcsr32"], ops=["transp", "transpinto", "tinplace"], depth=2, ns=3, types=[]),
        cfgd("permute twice (all pairs of permutation pairs)", ["csr_perm", "bcsr_perm"], ops=["permute"], depth=2, ns=1, types=[], perm="all"),
        # aliasing: clone / layout, then poke, format, copy
        cfgd("alias chains of 3 calls on 3 slots: clone, layout, poke, copy, dense transpose_inplace, convert_reverse", ["mini"],
             ops=["clone", "poke", "copy", "layout", "tinplace", "transpinto", "convrev"], depth=3, ns=3, types=[]),
        cfgd("alias chains of 2 calls on 2 slots incl. type-converting clones and converts, allocate + copy, convert_reverse", PAL,
             ops=["clone", "conv", "poke", "copy", "format", "layout", "alloc", "convrev"], depth=2, ns=2, types=["f32u32"]),
        # general chains
        cfgd("chains of 2 calls, 2 slots, all calls", PAL, depth=2, ns=2, types=[]),
        cfgd("chains of 3 calls, 2 slots: convert, transpose, permute, weak/shallow... clone, poke, mirror, convert_reverse", ["mini"], depth=3, ns=2, types=[],
             ops=["conv", "transp", "transpinto", "tinplace", "permute", "clone", "poke", "mirror", "convrev"]),
    ]
    if tier == "thorough":
        c += [
            cfgd("single: csr 3x3 all 512 patterns, remaining calls", ["csr_33"], ops=["clone", "copy", "format", "poke", "conv", "convctor", "alloc", "factory"]),
            cfgd("single: csr 4x4, all 4368 patterns with 5 entries: convert, transpose, permute, mirror", ["csr_44"], ops=["conv", "transp", "permute", "mirror"], workers=2),
            cfgd("single: cscr 3x3", ["cscr_33"]),
            cfgd("single: banded 4x4, 4x2, 1x4", ["banded_44"]),
            cfgd("single: bcsr 3x3 blocks", ["bcsr_33"], ops=PATOPS),
            cfgd("single: csr 3x3 all patterns, stored zeros, all permutation pairs", ["csr_33"], pal=2, perm="all", types=["f32u32"],
                 ops=["conv", "transp", "permute", "graph", "mirror", "factory"]),
            cfgd("alias chains of 3 calls on 3 slots, chain palette (csr, dense, bcsr)", ["csr_pal", "dense_pal", "bcsr_pal"],
                 ops=["clone", "poke", "copy", "format", "layout", "tinplace", "transpinto"], depth=3, ns=3, types=[]),
            cfgd("alias chains of 4 calls on 2 slots", ["mini"], ops=["clone", "poke", "copy"], depth=4, ns=2, types=[]),
            cfgd("permute twice, all csr shapes <= 3x2/2x3", ["csr_small"], ops=["permute"], depth=2, ns=1, types=[], perm="all"),
            cfgd("chains of 3 calls, 2 slots, all conversion / clone / transpose / permute / layout / graph / copy / format / poke calls", ["mini"], depth=3, ns=2, types=[],
                 ops=OLDOPS),
            cfgd("chains of 4 calls, 2 slots: convert, transpose, permute, poke", ["mini"], depth=4, ns=2, types=[], ops=["conv", "transp", "permute", "poke"]),
            cfgd("rebuild chains of 3 calls, 2 slots: mirror, allocate, full copy, layout, convert_reverse, factory, poke", ["csr_pal"], depth=3, ns=2, types=[],
                 ops=["mirror", "alloc", "copy", "layout", "convrev", "factory", "poke"]),
            cfgd("random chains of 10 calls on 3 slots (simulate)", PAL, depth=10, ns=3, simulate=600, workers=4, types=["f32u32"]),
            cfgd("random chains of 16 calls on 3 slots, stored zeros (simulate)", PAL, depth=16, ns=3, simulate=200, pal=2, workers=4, types=["f32u32"]),
        ]
    return c


def tset(xs):
    return "{" + ", ".join('"%s"' % x for x in xs) + "}"


def cfg_text(c):
    return ("SPECIFICATION Spec\nCONSTANTS NS = %d Depth = %d Seeds = %s SeedTypes = %s\n Ops = %s Types = %s PermSel = \"%s\" Palette = %d\n"
            "INVARIANTS %s\nCHECK_DEADLOCK FALSE\n" % (c["ns"], c["depth"], tset(c["seeds"]), tset(c["seedtypes"]), tset(c["ops"]), tset(c["types"]),
                                                         c["perm"], c["pal"], INV))


def gen_one(k, c):
    cfg = "gen_C02_%d_%d.cfg" % (os.getpid(), k)
    with open(os.path.join(vlib.SPEC, cfg), "w") as f:
        f.write(cfg_text(c))
    try:
        if c["simulate"]:
            # (in simulation mode TLC evaluates Emit on every successor of the last-but-one state, so one random walk
            # yields its whole fan of final calls)
            return vlib.tlc("Convert", cfg, workers=c["workers"], simulate=c["simulate"], depth=c["depth"] + 2, tseed=vlib.seed() + k,
                            timeout=2400, xmx="4g", tag="C02_%d" % k)
        return vlib.tlc("Convert", cfg, workers=c["workers"], timeout=2400, xmx="5g", tag="C02_%d" % k)
    finally:
        try:
            os.remove(os.path.join(vlib.SPEC, cfg))
        except OSError:
            pass


# ---------------------------------------------------------------------------------------------------------
# judgement
# ---------------------------------------------------------------------------------------------------------
def slot_table_before(case, k):
    """predicted projection of every slot before step k"""
    tab = {}
    for st in case["steps"][:k]:
        for e in st["exp"]:
            tab[e["slot"]] = e["st"]
    return tab


def sig_of(case, k, what):
    st = case["steps"][k]
    tab = slot_table_before(case, k)
    src = tab.get(st["src"], {})
    fmt = src.get("fmt", "")
    ix = src.get("ix", [])
    rp = ix[1]["d"] if fmt in ("csr", "bcsr", "cscr") and len(ix) >= 2 else []
    sig = {"op": st["op"], "srcfmt": fmt, "dstfmt": st["fmt"] or fmt, "mode": st["mode"] if st["op"] == "clone" else "",
           "what": what,
           "src_arrayless": fmt != "dense" and len(ix) == 0,
           "src_entry_free": src.get("ue", 1) == 0,
           "src_empty_row": fmt in ("csr", "bcsr") and any(rp[i] == rp[i + 1] for i in range(len(rp) - 1)),
           "src_cscr_partial_rows": fmt == "cscr" and (len(ix) < 3 or len(ix[2]["d"]) < src.get("m", 0)),
           "first_call": k == 1}
    return sig


def run_cases_retry(binary, cases, **kw):
    """vlib.run_cases; a harness process that dies OUTSIDE the journalled window of a case (killed at start-up on an overloaded
    machine, ...) is a transient machinery condition: the whole batch is replayed once more before giving up"""
    try:
        return vlib.run_cases(binary, cases, **kw)
    except vlib.MachineryError as e:
        if "died outside a case" not in str(e):
            raise
        print("[C02] replay batch repeated after: %s" % str(e)[:300], flush=True)
        return vlib.run_cases(binary, cases, **kw)


def run_alone(binary, path, k, case):
    """replay history k of ndjson file `path` alone in a fresh process"""
    import subprocess
    e = dict(os.environ); e.setdefault("OMP_NUM_THREADS", "1")
    for attempt in (0, 1):
        p = subprocess.run([binary, "--cases", path, "--only", str(k), "--timeout", "20"], stdout=subprocess.PIPE, stderr=subprocess.PIPE, env=e,
                           errors="replace", text=True)
        if "B %d" % k in p.stdout:
            break          # (not reached: killed before the history was started - tried once more)
    for line in p.stdout.splitlines():
        if line.startswith("R "):
            sp = line.split(" ", 2)
            try:
                return json.loads(sp[2])
            except Exception:
                break
    rc = p.returncode
    oc = "hang" if rc == 97 else (("abort" if -rc == 6 else "signal%d" % (-rc)) if rc < 0 else "exit%d" % rc)
    if "B %d" % k not in p.stdout:
        raise vlib.MachineryError("harness %s did not reach history %d of %s (rc=%s): %s" % (binary, k, path, rc, p.stderr[-500:]))
    return {"ok": None, "outcome": oc, "stderr": p.stderr.strip()[:1500]}


def confirm_and_localise(binary, path, k, case):
    """re-run a failing history alone in a fresh process (a real defect that corrupts the heap must not be blamed on the
    histories replayed after it in the same process); for abnormal terminations find the first failing step by prefixes"""
    r = run_alone(binary, path, k, case)
    if r.get("ok") is True:
        return None, None, None
    if "step" in r:
        return r, int(r["step"]), r.get("what", "mismatch")
    if len(case["steps"]) == 2:
        return r, 1, r.get("outcome", "mismatch")
    pre = [{"ns": case["ns"], "steps": case["steps"][:j + 1]} for j in range(1, len(case["steps"]))]
    rs = run_cases_retry(binary, pre, tmo=20, shards=1)
    for j, x in enumerate(rs):
        if x.get("ok") is not True:
            return r, j + 1, r.get("outcome") or x.get("outcome") or "mismatch"
    return r, len(case["steps"]) - 1, r.get("outcome", "mismatch")


def judge(binary, cases, results):
    """-> (list of (sig, desc, replay) for the confirmed disagreements, number unconfirmed)"""
    bad = [k for k, r in enumerate(results) if r.get("ok") is not True]
    if not bad:
        return [], 0
    import tempfile, shutil
    tmpd = tempfile.mkdtemp(prefix="cases_", dir=vlib.BUILD)
    path = os.path.join(tmpd, "failed.ndjson")
    with open(path, "w") as f:
        for k in bad:
            f.write(json.dumps(cases[k], separators=(",", ":")) + "\n")
    try:
        with cf.ThreadPoolExecutor(max_workers=max(2, vlib.NCPU // 2)) as ex:
            futs = [(k, ex.submit(confirm_and_localise, binary, path, j, cases[k])) for j, k in enumerate(bad)]
            outs = [(k, f.result()) for k, f in futs]
    finally:
        shutil.rmtree(tmpd, ignore_errors=True)
    found, unconfirmed = [], 0
    for k, (r, step, what) in outs:
        if r is None:
            unconfirmed += 1
            continue
        sig = sig_of(cases[k], step, what)
        desc = r.get("why") or ("outcome %s at step %d (%s): %s" % (r.get("outcome"), step, cases[k]["steps"][step]["op"], " ".join((r.get("stderr") or "")[:300].split())))
        found.append((sig, desc, {"kind": "case", "harness": HARNESS, "case": cases[k], "result": r, "step": step}))
    return found, unconfirmed


def hist_key(c):
    return json.dumps([[s["op"], s["src"], s["dst"], s["fmt"], s["ty"], s["mode"], s["p"], s["q"], s["k"], s["full"], s.get("ctor"), s.get("v"), s.get("tri"), s.get("pk"), s.get("qk")] for s in c["steps"][1:]]
                      + [c["steps"][0]["exp"][0]["st"]], sort_keys=True)


def one_config(binary, k, c):
    """generate, replay and judge the histories of one configuration (kept local so that memory is released per configuration)"""
    import hashlib
    r = gen_one(k, c)
    cases = r.printed
    r.printed = []
    out = {"tlc": r, "n": len(cases), "ops": {}, "steps": 0, "keys": set(), "found": [], "unconfirmed": 0, "samples": []}
    r.out = r.out[-4000:] if not r.violation else r.out
    if not cases:
        return out
    res = run_cases_retry(binary, cases, tmo=20, shards=max(2, vlib.NCPU // 3))
    for cse in cases:
        out["steps"] += len(cse["steps"]) - 1
        for st in cse["steps"][1:]:
            out["ops"][st["op"]] = out["ops"].get(st["op"], 0) + 1
        out["keys"].add(hashlib.md5(hist_key(cse).encode()).digest())
    out["found"], out["unconfirmed"] = judge(binary, cases, res)
    out["found"] = out["found"][:20000]
    out["samples"] = cases[len(cases) // 2: len(cases) // 2 + 1]
    return out


def run(chk):
    binary, = vlib.build([HARNESS])
    jobs = configs(chk.tier)
    total, nsteps, ops, unconf, samples = 0, 0, {}, 0, []
    keys = set()
    with cf.ThreadPoolExecutor(max_workers=MAXPAR) as ex:
        futs = [(ex.submit(one_config, binary, k, c), c) for k, c in enumerate(jobs)]
        for f, c in futs:
            o = f.result()
            r = o["tlc"]
            chk.add_tlc(r, c["name"])
            if r.violation:
                chk.model_violation(r, "Convert.tla invariant (%s)" % c["name"])
            if not o["n"]:
                raise vlib.MachineryError("generator produced no histories for: " + c["name"])
            chk.extra.setdefault("histories_per_config", {})[c["name"]] = o["n"]
            total += o["n"]; nsteps += o["steps"]; unconf += o["unconfirmed"]
            for kk, v in o["ops"].items():
                ops[kk] = ops.get(kk, 0) + v
            keys |= o["keys"]
            samples += o["samples"]
            for sig, desc, rp in o["found"]:
                chk.violation(sig, desc, rp)
    chk.evaluations = total
    chk.distinct = keys
    chk.extra["calls_replayed"] = nsteps
    chk.extra["calls_per_kind"] = ops
    chk.extra["failed_in_batch_but_passed_alone"] = unconf
    chk.traces = total
    chk.exhaustive = True
    chk.rule = ("every behaviour of spec/Convert.tla within the configured bounds: (a) every seed matrix of the palettes (all sparsity patterns of "
                "the listed shapes per format, entry-free and empty-row matrices, array-less and allocated entry-free containers) x every enabled "
                "call with every argument (target format, clone mode, target data/index type, permutation pair, poke position), incl. the "
                "building routes: SparseMatrixCSCR(csr, mirror) for every non-empty ascending row list (rows that are empty in the source included), "
                "the converting constructors MT(const MT_&) and dst = src.clone(mode), the allocating constructors, DenseMatrix(m,n,v), "
                "SparseMatrixFactory::add/make_csr in three insertion orders, SparseMatrixCSR::convert_reverse, and the Adjacency::Permutation "
                "arguments of permute built through perm / inv_perm / swap / inv_swap / inverse(); (b) all histories of "
                "2-3 (thorough: 4) calls over 2-3 slots on the chain palette; (c) thorough: seeded random histories of 10 and 16 calls (-simulate). "
                "After each call every slot is compared (dimensions, size(), used_elements, used_rows, raw arrays, validity of row pointer / "
                "column index / row number arrays, dense expansion, pointer identity). "
                "distinct = distinct (seed, call sequence with arguments)")
    for c in samples[3:4] + samples[9:10] + samples[-2:]:
        chk.sample({"seed": {k: c["steps"][0]["exp"][0]["st"][k] for k in ("fmt", "ty", "m", "n", "dense")},
                    "calls": [{k: s[k] for k in ("op", "src", "dst", "fmt", "ty", "mode", "p", "q") if s[k] not in ("", [], 0)} for s in c["steps"][1:]]})
    chk.assumptions = ["values are small integers (exact in float and double); conversion of values that are not representable in the target type is not explored",
                       "reference counting / freeing of the shared arrays is C20's subject; here only which arrays are shared is compared",
                       "generic convert(MT_) and banded<-csr are only called with used_elements > 0 (their documented XASSERT precondition)",
                       "the contents of arrays that the API leaves uninitialised (Layout/Allocate clones, layout constructor, allocating constructors) are not compared",
                       "the mirror of SparseMatrixCSCR(csr, mirror) has ascending indices (the CSCR format keeps its row numbers sorted) and at least one (XASSERT)",
                       "SparseMatrixFactory::add is called once per position (what a repeated add of the same position does is not specified)",
                       "constructors from files / byte streams are C05's subject, move construction / assignment C20's, the Permutation class itself C19's",
                       "a history is compared up to its first disagreement; calls after a known finding in the same history are not judged"]


def replay(obj):
    binary, = vlib.build([HARNESS])
    cases = [v["replay"]["case"] for v in obj["violations"] if v["replay"] and v["replay"].get("kind") == "case"]
    bad = 0
    for c in cases:
        r = vlib.run_cases(binary, [c], tmo=20, shards=1)[0]
        print(json.dumps({"calls": [s["op"] for s in c["steps"]], "result": r})[:1200])
        if r.get("ok") is not True:
            bad += 1
    return 1 if bad else 0
